"""Throw-away spike 2: path-enumerating symbolic evaluation of kio/serial/readers.py.
Replay-based forking: a deterministic evaluator takes a list of branch decisions; when a
symbolic condition is met beyond the list it takes branch 0 and records that a fork exists.
"""
import ast, pathlib, struct as _struct, itertools, collections, sys

SRC = pathlib.Path('/repo/src/kio')

class Sym:
    n = 0
    def __init__(self, term, kind='int', length=None):
        self.term, self.kind, self.length = term, kind, length
    def __repr__(self): return show(self.term)

def show(t):
    if isinstance(t, tuple):
        if t[0] == 'wire': return f'w{t[2]}:{t[1]}'
        if t[0] == 'bytes': return f'bytes#{t[1]}[{show(t[2])}]'
        if t[0] in ('+', '-', '&', '|', '<<', '>>', '^', '/', '*', '==', '!=', '<', '>=', 'neg'):
            if t[0] == 'neg': return f'-({show(t[1])})'
            return f'({show(t[1])} {t[0]} {show(t[2])})'
        return f'{t[0]}(' + ', '.join(show(x) for x in t[1:]) + ')'
    if isinstance(t, Sym): return show(t.term)
    return repr(t)

class Stream: pass
class Raise(Exception):
    def __init__(self, exc): self.exc = exc
class _Return(Exception):
    def __init__(self, v): self.v = v
class Limit(Exception): pass
class Closure:
    def __init__(self, fdef, env): self.fdef, self.env = fdef, env

class Run:
    def __init__(self, decisions):
        self.decisions = list(decisions); self.pos = 0; self.forks = []
        self.effects = []; self.conds = []; self.wires = 0; self.may_raise = []
    def decide(self, cond_term):
        if self.pos < len(self.decisions):
            d = self.decisions[self.pos]
        else:
            d = True; self.decisions.append(True)
        self.pos += 1
        self.conds.append((cond_term, d))
        return d

tree = ast.parse((SRC / 'serial/readers.py').read_text())
prim_tree = ast.parse((SRC / 'static/primitive.py').read_text())
FUNCS = {n.name: n for n in tree.body if isinstance(n, ast.FunctionDef) and not any(ast.unparse(d) == 'overload' for d in n.decorator_list)}
CONSTS = {}
for n in tree.body:
    if isinstance(n, ast.AnnAssign) and n.value is not None and isinstance(n.value, ast.Constant):
        CONSTS[n.target.id] = n.value.value
    if isinstance(n, ast.AnnAssign) and isinstance(n.value, ast.Name):      # read_legacy_array_length: Final = read_int32
        CONSTS[n.target.id] = ('alias', n.value.id)
TRUNCATE = [m for c in prim_tree.body if isinstance(c, ast.ClassDef) and c.name == 'TZAware' for m in c.body if isinstance(m, ast.FunctionDef) and m.name == 'truncate'][0]

def lookup(name, env, run):
    if name in env: return env[name]
    if name in FUNCS: return Closure(FUNCS[name], None)
    if name in CONSTS:
        v = CONSTS[name]
        return lookup(v[1], env, run) if isinstance(v, tuple) and v[0] == 'alias' else v
    if name in ('struct', 'datetime'): return ('module', name)
    if name in ('BufferUnderflow', 'UnexpectedNull', 'OutOfBoundValue', 'ValueError', 'TypeError'): return ('exc', name)
    if name in ('UUID', 'ErrorCode', 'TZAware', 'len', 'range', 'tuple'): return ('lib', name)
    if name == 'uuid_zero': return ('const', 'uuid_zero')
    raise Limit(f'name {name}')

def binop(op, a, b):
    if not isinstance(a, Sym) and not isinstance(b, Sym):
        return {'+': lambda: a + b, '-': lambda: a - b, '*': lambda: a * b, '&': lambda: a & b, '|': lambda: a | b,
                '<<': lambda: a << b, '>>': lambda: a >> b, '^': lambda: a ^ b, '/': lambda: a / b}[op]()
    if op == '|' and a == 0: return b      # result = 0; result |= chunk
    if op == '<<' and b == 0: return a
    return Sym((op, a, b), kind='float' if op == '/' else 'int')

OPS = {ast.Add: '+', ast.Sub: '-', ast.Mult: '*', ast.BitAnd: '&', ast.BitOr: '|', ast.LShift: '<<', ast.RShift: '>>', ast.BitXor: '^', ast.Div: '/'}

def ev(e, env, run):
    if isinstance(e, ast.Constant): return e.value
    if isinstance(e, ast.Name): return lookup(e.id, env, run)
    if isinstance(e, ast.BinOp): return binop(OPS[type(e.op)], ev(e.left, env, run), ev(e.right, env, run))
    if isinstance(e, ast.UnaryOp) and isinstance(e.op, ast.USub):
        v = ev(e.operand, env, run); return Sym(('neg', v)) if isinstance(v, Sym) else -v
    if isinstance(e, ast.Tuple): return tuple(ev(x, env, run) for x in e.elts)
    if isinstance(e, ast.Subscript):
        o = ev(e.value, env, run); k = ev(e.slice, env, run)
        return o[k]
    if isinstance(e, ast.Attribute):
        o = ev(e.value, env, run)
        if isinstance(o, tuple) and o[0] == 'module': return ('lib', o[1] + '.' + e.attr)
        if isinstance(o, tuple) and o[0] == 'lib': return ('lib', o[1] + '.' + e.attr)
        if isinstance(o, tuple) and o[0] == 'const' and e.attr == 'bytes': return ('const', 'uuid_zero.bytes')
        if isinstance(o, Stream): return ('stream-method', e.attr)
        if isinstance(o, Sym): return ('method', o, e.attr)
        raise Limit(f'attr {e.attr} on {o!r}')
    if isinstance(e, ast.Compare):
        a = ev(e.left, env, run); (op,), (r,) = e.ops, e.comparators; b = ev(r, env, run)
        sym = {ast.Eq: '==', ast.NotEq: '!=', ast.Lt: '<', ast.GtE: '>='}.get(type(op))
        if isinstance(op, ast.Is): return a is b
        if isinstance(a, Sym) or isinstance(b, Sym) or isinstance(a, tuple) or isinstance(b, tuple):
            return Sym((sym, a, b), kind='bool')
        return {'==': a == b, '!=': a != b, '<': a < b, '>=': a >= b}[sym]
    if isinstance(e, ast.Call): return call(e, env, run)
    if isinstance(e, ast.JoinedStr): return '<fstr>'
    if isinstance(e, ast.GeneratorExp):
        g, = e.generators
        it = ev(g.iter, env, run)
        if isinstance(it, tuple) and it[0] == 'symrange':
            sub = Run([]); sub.wires = run.wires + 100
            sub_env = dict(env); sub_env[g.target.id] = Sym(('loopvar',))
            val = ev(e.elt, sub_env, sub)
            if sub.forks or len(sub.decisions): pass
            run.effects.append(('Repeat', it[1], sub.effects, sub.may_raise))
            return ('repeated', it[1], val)
        raise Limit('genexp over concrete')
    raise Limit(f'expr {type(e).__name__} {ast.unparse(e)[:50]}')

def truth(v, run):
    if isinstance(v, Sym): return run.decide(v.term)
    return bool(v)

def call(e, env, run):
    fn = ev(e.func, env, run)
    args = [ev(a, env, run) for a in e.args]
    kw = {k.arg: ev(k.value, env, run) for k in e.keywords}
    if isinstance(fn, Closure): return call_closure(fn, args, kw, run)
    if isinstance(fn, tuple) and fn[0] == 'stream-method':
        if fn[1] == 'read':
            n = args[0]; run.wires += 1
            run.effects.append(('RawRead', n))
            return Sym(('bytes', run.wires, n), kind='rawbytes', length=None)   # length unknown: raw read
        run.effects.append(('Other', fn[1])); return Sym(('other',))
    if isinstance(fn, tuple) and fn[0] == 'exc': return ('excinst', fn[1])
    if isinstance(fn, tuple) and fn[0] == 'method':
        _, o, name = fn
        if name == 'decode':
            run.may_raise.append('UnicodeDecodeError'); return Sym(('utf8', o), kind='str')
        if name == 'replace': return Sym(('replace', o, tuple(sorted(kw.items()))), kind='datetime')
        raise Limit(f'method {name}')
    if isinstance(fn, tuple) and fn[0] == 'lib':
        name = fn[1]
        if name == 'len':
            v = args[0]
            if v.kind == 'rawbytes': return Sym(('len', v))
            return v.length
        if name == 'struct.unpack':
            fmt, data = args
            if data.kind != 'bytes' or data.length != _struct.calcsize(fmt): run.may_raise.append('struct.error')
            run.wires += 1
            return (Sym(('wire', fmt, run.wires)),)
        if name == 'range':
            if any(isinstance(a, Sym) for a in args): return ('symrange', args[0])
            return range(*args)
        if name == 'tuple': return Sym(('tuple', args[0]), kind='tuple')
        if name == 'UUID': return Sym(('UUID', kw['bytes']), kind='uuid')
        if name == 'ErrorCode': run.may_raise.append('ValueError'); return Sym(('ErrorCode', args[0]), kind='enum')
        if name == 'datetime.timedelta': run.may_raise.append('OverflowError'); return Sym(('timedelta', tuple(sorted(kw.items()))), kind='timedelta')
        if name == 'datetime.datetime.fromtimestamp':
            run.may_raise += ['OverflowError', 'ValueError', 'OSError']; return Sym(('fromtimestamp', args[0]), kind='datetime')
        if name == 'datetime.UTC': return 'UTC'
        if name == 'TZAware.truncate':
            # interpret the classmethod body from primitive.py: cls.parse(value.replace(microsecond=0))
            body_call = TRUNCATE.body[0].value          # Return(Call(cls.parse, [Call(value.replace, microsecond=0)]))
            inner = body_call.args[0]
            v = ev(inner, {'value': args[0]}, run)
            ok = run.decide(('isinstance', v.term, 'TZAware'))
            if not ok: raise Raise('TypeError')
            return v
        raise Limit(f'lib {name}')
    raise Limit(f'call {fn!r}')

def call_closure(c, args, kw, run):
    f = c.fdef
    env = dict(c.env) if c.env else {}
    params = [p.arg for p in f.args.args]
    bound = dict(zip(params, args)); bound.update(kw)
    for p, d in zip(params[len(params) - len(f.args.defaults):], f.args.defaults):
        if p not in bound: bound[p] = ev(d, env, run)
    env.update(bound)
    if f.name == 'read_exact' and not getattr(run, 'inline_read_exact', False):
        # summarise: verify shape once elsewhere; here record the exact read
        n = bound['num_bytes']; run.wires += 1
        run.effects.append(('ReadExact', n)); run.may_raise.append('BufferUnderflow')
        return Sym(('bytes', run.wires, n), kind='bytes', length=n)
    try:
        exec_block(f.body, env, run)
    except _Return as r:
        return r.v
    return None

def exec_block(stmts, env, run):
    for s in stmts: exec_stmt(s, env, run)

def assign(t, v, env, run):
    if isinstance(t, ast.Name): env[t.id] = v
    elif isinstance(t, ast.Tuple):
        if isinstance(v, Sym) and v.kind == 'bytes' and v.length == len(t.elts):
            for i, x in enumerate(t.elts): assign(x, Sym(('byte', v.term, i)), env, run)
        elif isinstance(v, tuple) and len(v) == len(t.elts):
            for x, y in zip(t.elts, v): assign(x, y, env, run)
        else: run.may_raise.append('ValueError(unpack)'); raise Limit('unpack arity')
    else: raise Limit('assign target')

def exec_stmt(s, env, run):
    if isinstance(s, ast.Return): raise _Return(ev(s.value, env, run) if s.value else None)
    if isinstance(s, ast.Assign):
        v = ev(s.value, env, run)
        for t in s.targets: assign(t, v, env, run)
    elif isinstance(s, ast.AnnAssign): assign(s.target, ev(s.value, env, run), env, run)
    elif isinstance(s, ast.AugAssign):
        env[s.target.id] = binop(OPS[type(s.op)], env[s.target.id], ev(s.value, env, run))
    elif isinstance(s, ast.Expr):
        if not isinstance(s.value, ast.Constant): ev(s.value, env, run)
    elif isinstance(s, ast.If):
        exec_block(s.body if truth(ev(s.test, env, run), run) else s.orelse, env, run)
    elif isinstance(s, ast.For):
        for item in ev(s.iter, env, run):
            assign(s.target, item, env, run); exec_block(s.body, env, run)
    elif isinstance(s, ast.Raise):
        e = ev(s.exc, env, run); raise Raise(e[1])
    elif isinstance(s, ast.Try):
        try: exec_block(s.body, env, run)
        except Raise as r:
            for h in s.handlers:
                if ast.unparse(h.type) == r.exc:
                    exec_block(h.body, env, run); break
            else: raise
    elif isinstance(s, ast.FunctionDef):
        env[s.name] = Closure(s, env)
    else: raise Limit(f'stmt {type(s).__name__}')

def explore(fname, extra_env=None):
    paths = []; todo = [[]]
    while todo:
        dec = todo.pop()
        run = Run(dec)
        run.inline_read_exact = (fname == 'read_exact')
        env = {'buffer': Stream()}
        if extra_env: env.update(extra_env)
        f = FUNCS[fname]
        args = {}
        try:
            params = [p.arg for p in f.args.args]
            call_args = [env['buffer']] if params and params[0] == 'buffer' else []
            if fname == 'read_exact': call_args.append(Sym(('n',)))
            out = ('return', call_closure(Closure(f, None), call_args, {k: v for k, v in (extra_env or {}).items() if k in params}, run))
        except Raise as r:
            out = ('raise', r.exc)
        paths.append((run.conds, run.effects, out, sorted(set(run.may_raise))))
        # schedule the alternative of every decision taken by default in this run
        for i in range(len(dec), len(run.decisions)):
            todo.append(run.decisions[:i] + [False])
    return paths

if __name__ == '__main__':
    ITEM = Closure(ast.parse('def item(buffer):\n    return read_exact(buffer, 1)').body[0], None)
    FUNCS['item'] = ITEM.fdef
    total = 0
    for name in FUNCS:
        if name in ('item', '_zigzag_decode', 'tz_aware_from_i64'): continue
        try:
            if name in ('compact_array_reader', 'legacy_array_reader'):
                # obtain the closure, then explore it
                run = Run([]); clo = call_closure(Closure(FUNCS[name], None), [Closure(FUNCS['item'], None)], {}, run)
                FUNCS['__inner__'] = clo.fdef
                # explore inner with captured env
                paths = []
                todo = [[]]
                while todo:
                    dec = todo.pop(); r2 = Run(dec)
                    try: out = ('return', call_closure(clo, [Stream()], {}, r2))
                    except Raise as r: out = ('raise', r.exc)
                    paths.append((r2.conds, r2.effects, out, sorted(set(r2.may_raise))))
                    for i in range(len(dec), len(r2.decisions)): todo.append(r2.decisions[:i] + [False])
            else:
                paths = explore(name)
        except Limit as e:
            print(f'{name}: LIMIT {e}'); continue
        total += len(paths)
        if name in ('read_unsigned_varint', 'read_unsigned_varlong', 'read_signed_varlong'):
            print(f'{name}: {len(paths)} paths; reads per path {sorted(len(p[1]) for p in paths)}; outcomes {collections.Counter(p[2][0] for p in paths)}')
            if name == 'read_unsigned_varint':
                p = [p for p in paths if p[2][0] == 'return' and len(p[1]) == 3][0]
                print('   3-byte path value term:', p[2][1])
            continue
        print(f'{name}: {len(paths)} paths')
        for conds, eff, out, mr in paths:
            cs = ' & '.join(('' if d else 'not ') + show(c) for c, d in conds)
            es = '; '.join(f'{k}({show(n)})' if k != 'Repeat' else f'Repeat[{show(n)}]{{' + ', '.join(f'{a}({show(b)})' for a, b in body) + '}' for k, n, *rest in eff for body in [rest[0] if rest else None])
            print(f'     [{cs}]  {es}  -> {out[0]} {out[1] if out[0]=="raise" else show(out[1].term) if isinstance(out[1], Sym) else out[1]}   may:{mr}')
    print('total paths', total)
