"""Throw-away spike: can a small AST evaluator compute entity_reader/entity_writer
plans for every schema class from source, without importing kio?  Compared afterwards
with the real closures (separate script)."""
import ast, json, pathlib, sys, time, collections

SRC = pathlib.Path('/repo/src/kio')

# ---------------------------------------------------------------- abstract values
class TypeTerm:
    pass

class Builtin(TypeTerm):
    def __init__(self, name): self.name = name; self.__name__ = name
    def __repr__(self): return f'<{self.name}>'

NONETYPE, UNIONTYPE, ELLIPSISTYPE, TUPLE, UNION = (Builtin(n) for n in ('NoneType', 'UnionType', 'EllipsisType', 'tuple', 'typing.Union'))
_prims = {}
def Prim(name, base=None):
    if name not in _prims:
        p = Builtin(name); p.base = base; _prims[name] = p
    return _prims[name]

class EntityClass(TypeTerm):
    def __init__(self, info): self.info = info; self.fields = None; self.name = info['name']
    def __repr__(self): return f"<E {self.info['api']}.v{self.info['ver']}.{self.info['typ']}:{self.name}>"

class Alias(TypeTerm):            # tuple[X, ...]
    def __init__(self, origin, args): self.origin, self.args = origin, args
class UnionT(TypeTerm):
    def __init__(self, args): self.args = args

class Missing:
    def __repr__(self): return 'MISSING'
MISSING = Missing()

class FieldObj:
    def __init__(self, name, type_, metadata, default):
        self.name, self.type, self.metadata, self.default = name, type_, metadata, default
    def __repr__(self): return f'<F {self.name}>'

class FuncRef:
    def __init__(self, mod, name): self.mod, self.name = mod, name
    def __repr__(self): return f'{self.mod}.{self.name}'
    def __eq__(self, o): return isinstance(o, FuncRef) and (self.mod, self.name) == (o.mod, o.name)
    def __hash__(self): return hash((self.mod, self.name))

class Applied:                    # opaque application of a library/primitive-module function
    def __init__(self, fn, args): self.fn, self.args = fn, args
    def __repr__(self): return f'{self.fn}({", ".join(map(repr, self.args))})'

class Closure:
    def __init__(self, fdef, env, mod): self.fdef, self.env, self.mod = fdef, env, mod
    def __repr__(self): return f'<closure {self.fdef.name}>'

class DataInst:                   # instance of the _introspect dataclasses / defaults of entities
    def __init__(self, cls, kw): self.cls, self.kw = cls, kw
    def __repr__(self): return f'{self.cls}({self.kw})'
    def __eq__(self, o): return isinstance(o, DataInst) and self.cls == o.cls and self.kw == o.kw
    def __hash__(self): return hash(self.cls)

class AbstractRaise(Exception):
    def __init__(self, exc, msg=''): self.exc, self.msg = exc, msg; super().__init__(f'{exc}: {msg}')

class Limit(Exception):
    pass

class _Return(Exception):
    def __init__(self, v): self.v = v
class _Continue(Exception):
    pass

INTROSPECT_CLASSES = {'PrimitiveField': False, 'PrimitiveTupleField': True, 'EntityField': False, 'EntityTupleField': True}

# ---------------------------------------------------------------- module loading
class Module:
    def __init__(self, name, path):
        self.name = name
        self.tree = ast.parse(path.read_text())
        self.funcs = {}
        self.env = {}
        for n in self.tree.body:
            if isinstance(n, ast.FunctionDef):
                if any(ast.unparse(d) == 'overload' for d in n.decorator_list):
                    continue
                self.funcs[n.name] = n

mods = {n: Module(n, SRC / p) for n, p in {
    '_introspect': 'serial/_introspect.py', '_parse': 'serial/_parse.py', '_serialize': 'serial/_serialize.py',
    '_implicit_defaults': 'serial/_implicit_defaults.py'}.items()}

counter = collections.Counter()

def lib(name):
    return FuncRef('lib', name)

def base_env(modname):
    env = {}
    for m in mods.values():
        for f in m.funcs.values():
            pass
    # names shared across modules (imports resolved by hand in the spike)
    for m in ('_introspect', '_implicit_defaults'):
        for fname, f in mods[m].funcs.items():
            env[fname] = Closure(f, None, m)
    for fname, f in mods[modname].funcs.items():
        env[fname] = Closure(f, None, modname)
    for c in INTROSPECT_CLASSES:
        env[c] = ('introspect-class', c)
    env.update(NoneType=NONETYPE, UnionType=UNIONTYPE, EllipsisType=ELLIPSISTYPE, Union=UNION, tuple=TUPLE,
               MISSING=MISSING, fields=lib('fields'), is_dataclass=lib('is_dataclass'), get_origin=lib('get_origin'),
               get_args=lib('get_args'), isinstance=lib('isinstance'), issubclass=lib('issubclass'), sorted=lib('sorted'),
               uvarint=lib('uvarint'), SchemaError=('exc', 'SchemaError'), TypeError=('exc', 'TypeError'),
               ValueError=('exc', 'ValueError'), NotImplementedError=('exc', 'NotImplementedError'), KeyError=('exc', 'KeyError'),
               assert_never=lib('assert_never'), str=Prim('str'), Records=Prim('Records'), type=lib('type'),
               primitive_implicit_defaults='PID', NullableEntityMarker='NEM')
    for w in ('readers', 'writers'):
        env[w] = ('module', w)
    for n in ('compact_array_writer', 'legacy_array_writer', 'write_int8', 'write_tagged_field', 'write_unsigned_varint'):
        env[n] = FuncRef('writers', n)
    env['read_int8'] = FuncRef('readers', 'read_int8')
    return env

IMPLICIT = {'u8': 0, 'u16': 0, 'u32': 0, 'u64': 0, 'i8': 0, 'i16': 0, 'i32': 0, 'i64': 0, 'f64': 0.0,
            'i32Timedelta': 'td0', 'i64Timedelta': 'td0', 'TZAware': 'epoch', 'UUID': 'uuid0', 'str': '', 'bytes': b''}

# ---------------------------------------------------------------- evaluator
def call(fn, args, kwargs):
    counter['calls'] += 1
    if isinstance(fn, Closure):
        return call_closure(fn, args, kwargs)
    if isinstance(fn, FuncRef) and fn.mod == 'lib':
        return call_lib(fn.name, args, kwargs)
    if isinstance(fn, FuncRef):
        return Applied(fn, tuple(args))
    if isinstance(fn, tuple) and fn[0] == 'introspect-class':
        return DataInst(fn[1], {'type_': args[0]})
    if isinstance(fn, tuple) and fn[0] == 'exc':
        return ('excinst', fn[1], args)
    if isinstance(fn, EntityClass):          # field.type(**defaults)
        return DataInst(repr(fn), dict(kwargs))
    raise Limit(f'call of {fn!r}')

def call_lib(name, a, kw):
    if name == 'fields':
        return a[0].fields
    if name == 'is_dataclass':
        return isinstance(a[0], EntityClass)
    if name == 'get_origin':
        t = a[0]
        return t.origin if isinstance(t, Alias) else UNIONTYPE if isinstance(t, UnionT) else None
    if name == 'get_args':
        t = a[0]
        return tuple(t.args) if isinstance(t, (Alias, UnionT)) else ()
    if name == 'isinstance':
        v, c = a
        cs = c if isinstance(c, tuple) and not (c and c[0] == 'introspect-class') else (c,)
        if isinstance(c, UnionT): cs = c.args
        for ci in cs:
            if isinstance(ci, tuple) and ci[0] == 'introspect-class':
                if isinstance(v, DataInst) and v.cls == ci[1]: return True
            elif ci is Prim('str'):
                if isinstance(v, str): return True
            elif ci is ELLIPSISTYPE:
                if v is Ellipsis: return True
            else:
                raise Limit(f'isinstance {v!r} {ci!r}')
        return False
    if name == 'issubclass':
        t, c = a
        while t is not None:
            if t is c: return True
            t = getattr(t, 'base', None)
        return False
    if name == 'sorted':
        return sorted(a[0])
    if name == 'uvarint':
        if not (isinstance(a[0], int) and 0 <= a[0] <= 2**35 - 1): raise AbstractRaise('TypeError', 'uvarint')
        return a[0]
    if name == 'assert_never':
        raise AbstractRaise('AssertionError', 'assert_never')
    raise Limit(f'lib {name}')

def call_closure(c, args, kwargs):
    f = c.fdef
    env = dict(c.env) if c.env is not None else base_env(c.mod)
    params = [p.arg for p in f.args.args]
    defaults = f.args.defaults
    bound = dict(zip(params, args))
    for k, v in kwargs.items():
        bound[k] = v
    for p, d in zip(params[len(params) - len(defaults):], defaults):
        if p not in bound:
            bound[p] = ev(d, env)
    missing = [p for p in params if p not in bound]
    if missing: raise Limit(f'missing args {missing} calling {f.name}')
    env.update(bound)
    try:
        exec_block(f.body, env, c.mod)
    except _Return as r:
        return r.v
    return None

def exec_block(stmts, env, mod):
    for s in stmts:
        exec_stmt(s, env, mod)

def assign(target, value, env):
    if isinstance(target, ast.Name):
        env[target.id] = value
    elif isinstance(target, (ast.Tuple, ast.List)):
        vals = list(value)
        if len(vals) != len(target.elts): raise AbstractRaise('ValueError', 'unpack')
        for t, v in zip(target.elts, vals): assign(t, v, env)
    elif isinstance(target, ast.Subscript):
        ev(target.value, env)[ev(target.slice, env)] = value
    else:
        raise Limit(f'assign to {ast.dump(target)}')

def match_pattern(pat, v, env):
    if isinstance(pat, ast.MatchValue):
        return ev(pat.value, env) == v
    if isinstance(pat, ast.MatchSingleton):
        return v is pat.value
    if isinstance(pat, ast.MatchAs):
        if pat.pattern is not None and not match_pattern(pat.pattern, v, env): return False
        if pat.name: env[pat.name] = v
        return True
    if isinstance(pat, ast.MatchOr):
        return any(match_pattern(p, v, env) for p in pat.patterns)
    if isinstance(pat, ast.MatchSequence):
        if not isinstance(v, (tuple, list)) or len(v) != len(pat.patterns): return False
        return all(match_pattern(p, x, env) for p, x in zip(pat.patterns, v))
    if isinstance(pat, ast.MatchClass):
        cls = ev(pat.cls, env)
        if cls is ELLIPSISTYPE:
            return v is Ellipsis
        if isinstance(cls, tuple) and cls[0] == 'introspect-class':
            if not (isinstance(v, DataInst) and v.cls == cls[1]): return False
            for p, key in zip(pat.patterns, ['type_']):
                if not match_pattern(p, v.kw[key], env): return False
            return True
        raise Limit(f'class pattern {cls!r}')
    raise Limit(f'pattern {ast.dump(pat)}')

def exec_stmt(s, env, mod):
    counter['stmts'] += 1
    if isinstance(s, ast.Return):
        raise _Return(ev(s.value, env) if s.value else None)
    if isinstance(s, ast.Assign):
        v = ev(s.value, env)
        for t in s.targets: assign(t, v, env)
    elif isinstance(s, ast.AnnAssign):
        if s.value is not None: assign(s.target, ev(s.value, env), env)
    elif isinstance(s, ast.Expr):
        if not isinstance(s.value, ast.Constant): ev(s.value, env)
    elif isinstance(s, ast.If):
        exec_block(s.body if truth(ev(s.test, env)) else s.orelse, env, mod)
    elif isinstance(s, ast.For):
        for item in list(ev(s.iter, env)):
            assign(s.target, item, env)
            try: exec_block(s.body, env, mod)
            except _Continue: continue
    elif isinstance(s, ast.Raise):
        e = ev(s.exc, env)
        raise AbstractRaise(e[1] if isinstance(e, tuple) else str(e))
    elif isinstance(s, ast.Try):
        try:
            exec_block(s.body, env, mod)
        except AbstractRaise as e:
            for h in s.handlers:
                names = [ast.unparse(h.type)] if not isinstance(h.type, ast.Tuple) else [ast.unparse(x) for x in h.type.elts]
                if e.exc in names:
                    if h.name: env[h.name] = ('excinst', e.exc, ())
                    exec_block(h.body, env, mod); break
            else:
                raise
    elif isinstance(s, ast.Match):
        subj = ev(s.subject, env)
        for case in s.cases:
            if match_pattern(case.pattern, subj, env) and (case.guard is None or truth(ev(case.guard, env))):
                exec_block(case.body, env, mod); break
    elif isinstance(s, ast.FunctionDef):
        env[s.name] = Closure(s, env, mod)      # captures env by reference (Python semantics)
    elif isinstance(s, ast.Continue):
        raise _Continue()
    else:
        raise Limit(f'stmt {type(s).__name__}')

def truth(v):
    if isinstance(v, (bool, int, str, tuple, list, dict)) or v is None: return bool(v)
    if isinstance(v, (TypeTerm, FuncRef, Closure, FieldObj, DataInst)): return True
    raise Limit(f'truth of {v!r}')

def ev(e, env):
    counter['exprs'] += 1
    if isinstance(e, ast.Constant): return e.value
    if isinstance(e, ast.Name):
        if e.id in env: return env[e.id]
        raise Limit(f'name {e.id}')
    if isinstance(e, ast.Attribute):
        o = ev(e.value, env)
        if isinstance(o, tuple) and o and o[0] == 'module':
            return FuncRef(o[1], e.attr)
        if isinstance(o, FieldObj): return getattr(o, e.attr)
        if isinstance(o, EntityClass):
            if e.attr == '__flexible__': return o.info['flexible']
            if e.attr == '__name__': return o.name
        if isinstance(o, DataInst) and e.attr == 'is_array': return INTROSPECT_CLASSES[o.cls]
        if isinstance(o, DataInst) and e.attr in o.kw: return o.kw[e.attr]
        if isinstance(o, Builtin) and e.attr == '__bases__': return (o.base,)
        if isinstance(o, dict) and e.attr in ('items', 'keys', 'values'): return ('bound', o, e.attr)
        if o == 'NEM': return ('NEM', e.attr)
        raise Limit(f'attr {e.attr} of {o!r}')
    if isinstance(e, ast.Call):
        fn = ev(e.func, env)
        args = [ev(a, env) for a in e.args]
        kwargs = {}
        for k in e.keywords:
            if k.arg is None: kwargs.update(ev(k.value, env))
            else: kwargs[k.arg] = ev(k.value, env)
        if isinstance(fn, tuple) and fn[0] == 'bound':
            return list(getattr(fn[1], fn[2])())
        return call(fn, args, kwargs)
    if isinstance(e, ast.Compare):
        left = ev(e.left, env)
        for op, r in zip(e.ops, e.comparators):
            right = ev(r, env)
            if isinstance(op, ast.Is): ok = left is right
            elif isinstance(op, ast.IsNot): ok = left is not right
            elif isinstance(op, ast.Eq): ok = left == right
            elif isinstance(op, ast.NotEq): ok = left != right
            elif isinstance(op, ast.In): ok = any(left is x or left == x for x in right)
            elif isinstance(op, ast.NotIn): ok = not any(left is x or left == x for x in right)
            else: raise Limit('cmp')
            if not ok: return False
            left = right
        return True
    if isinstance(e, ast.BoolOp):
        v = None
        for x in e.values:
            v = ev(x, env)
            if isinstance(e.op, ast.And) and not truth(v): return v
            if isinstance(e.op, ast.Or) and truth(v): return v
        return v
    if isinstance(e, ast.UnaryOp) and isinstance(e.op, ast.Not): return not truth(ev(e.operand, env))
    if isinstance(e, ast.IfExp): return ev(e.body if truth(ev(e.test, env)) else e.orelse, env)
    if isinstance(e, ast.Tuple): return tuple(ev(x, env) for x in e.elts)
    if isinstance(e, ast.List): return [ev(x, env) for x in e.elts]
    if isinstance(e, ast.Dict): return {ev(k, env): ev(v, env) for k, v in zip(e.keys, e.values)}
    if isinstance(e, ast.DictComp):
        g, = e.generators; out = {}; sub = dict(env)
        for item in list(ev(g.iter, env)):
            assign(g.target, item, sub)
            if all(truth(ev(c, sub)) for c in g.ifs): out[ev(e.key, sub)] = ev(e.value, sub)
        return out
    if isinstance(e, ast.JoinedStr): return '<fstring>'
    if isinstance(e, ast.BinOp) and isinstance(e.op, ast.BitOr):
        return UnionT((ev(e.left, env), ev(e.right, env)))
    if isinstance(e, ast.Subscript):
        o = ev(e.value, env); k = ev(e.slice, env)
        if o == 'PID':
            n = getattr(k, 'name', None)
            if n in IMPLICIT: return ('implicit', n)
            raise AbstractRaise('KeyError', str(k))
        try: return o[k]
        except KeyError: raise AbstractRaise('KeyError', repr(k))
    raise Limit(f'expr {type(e).__name__}: {ast.unparse(e)[:60]}')

# ---------------------------------------------------------------- schema -> abstract classes
CUSTOM = {'BrokerId': 'i32', 'GroupId': 'str', 'ProducerId': 'i64', 'TopicName': 'str', 'TransactionalId': 'str'}
for n in ('i8', 'i16', 'i32', 'i64', 'u8', 'u16', 'u32', 'u64', 'f64', 'str', 'bytes', 'bool', 'i32Timedelta', 'i64Timedelta', 'TZAware', 'ErrorCode'):
    Prim(n)
Prim('UUID'); Prim('Records', Prim('bytes'))
for c, b in CUSTOM.items(): Prim(c, Prim(b))

def build_classes():
    cs = json.load(open('/tmp/explore/ssm.json'))
    idx = {}
    for c in cs:
        idx[(c['api'], c['ver'], c['typ'], c['name'])] = EntityClass(c)
    for key, ec in idx.items():
        fl = []
        for f in ec.info['fields']:
            base = f['base']
            if f['kind'] == 'entity': t = idx[key[:3] + (base,)]
            else: t = Prim('UUID' if base == 'uuid.UUID' else base)
            if f['inner_opt']: t = UnionT((t, NONETYPE))
            if f['arr']: t = Alias(TUPLE, (t, Ellipsis))
            if f['outer_opt']: t = UnionT((t, NONETYPE))
            default = MISSING if f['default'] is None else ('default', f['default'])
            fl.append(FieldObj(f['name'], t, f['meta'], default))
        ec.fields = fl
    return idx

def describe(v):
    if isinstance(v, FuncRef): return v.name
    if isinstance(v, Applied): return (v.fn.name,) + tuple(describe(a) for a in v.args)
    if isinstance(v, Closure): return ('closure', v.fdef.name, describe_env(v))
    return repr(v)

def describe_env(c):
    return None

cache = {}
def plan(direction, ec, nullable=False):
    key = (direction, id(ec), nullable)
    if key in cache: return cache[key]
    mod = '_parse' if direction == 'r' else '_serialize'
    fname = 'entity_reader' if direction == 'r' else 'entity_writer'
    env = base_env(mod)
    # recursion through the cached factory: intercept so nested plans are references
    env[fname] = FuncRef('factory', fname)
    fdef = mods[mod].funcs[fname]
    c = Closure(fdef, env, mod)
    # run the factory body but stop at the returned closure: we want the captured dicts
    local = dict(env)
    local.update(entity_type=ec, nullable=nullable)
    try:
        exec_block(fdef.body, local, mod)
    except _Return:
        pass
    fr = local['field_readers' if direction == 'r' else 'field_writers']
    tr = local['tagged_field_readers' if direction == 'r' else 'tagged_field_writers']
    out = ([(f.name, describe(v)) for f, v in fr.items()],
           [(tag, f.name, describe(v), repr(d)) for tag, (f, v, d) in tr.items()])
    cache[key] = out
    return out

if __name__ == '__main__':
    t0 = time.time()
    idx = build_classes()
    t1 = time.time()
    res = {}
    errors = collections.Counter()
    for key, ec in idx.items():
        for d in 'rw':
            try:
                res['|'.join(map(str, key)) + '|' + d] = plan(d, ec)
            except AbstractRaise as e:
                errors['raise ' + e.exc + ' ' + e.msg] += 1
            except Limit as e:
                errors['limit ' + str(e)] += 1
    t2 = time.time()
    print('classes', len(idx), 'plans', len(res), 'build', round(t1 - t0, 2), 'plan', round(t2 - t1, 2), dict(counter))
    print(dict(errors))
    json.dump(res, open('/tmp/explore/plans_static.json', 'w'), default=repr)
    k = 'fetch|15|request|FetchRequest|'
    print(res[k + 'r']); print(res[k + 'w'])
