import ast, sys, pathlib, collections, json, time, re
root = pathlib.Path('/repo/src/kio/schema')
types_tree = ast.parse((root/'types.py').read_text())
custom = {n.name: ast.unparse(n.bases[0]) for n in types_tree.body if isinstance(n, ast.ClassDef)}
classes = {}  # (api, ver, typ, name) -> info
order = []
for p in sorted(root.rglob('*.py')):
    rel = p.relative_to(root)
    if len(rel.parts) != 3 or rel.name == '__init__.py': continue
    api, ver, typ = rel.parts[0], int(rel.parts[1][1:]), rel.stem
    tree = ast.parse(p.read_text())
    imports = {}
    for n in tree.body:
        if isinstance(n, ast.ImportFrom):
            for a in n.names: imports[a.asname or a.name] = (n.module, a.name)
    local = [n.name for n in tree.body if isinstance(n, ast.ClassDef)]
    for n in tree.body:
        if not isinstance(n, ast.ClassDef): continue
        cv = {}; fields = []
        for st in n.body:
            if isinstance(st, ast.AnnAssign):
                name = st.target.id
                if name.startswith('__'):
                    cv[name] = st.value
                else:
                    ann = st.annotation
                    outer_opt = False; is_arr=False; inner_opt=False
                    if isinstance(ann, ast.BinOp):  # X | None
                        assert isinstance(ann.right, ast.Constant) and ann.right.value is None
                        outer_opt = True; ann = ann.left
                    if isinstance(ann, ast.Subscript):
                        assert ast.unparse(ann.value) == 'tuple'
                        is_arr = True
                        el = ann.slice.elts
                        assert isinstance(el[1], ast.Constant) and el[1].value is Ellipsis
                        ann = el[0]
                        if isinstance(ann, ast.BinOp):
                            inner_opt = True; ann = ann.left
                    base = ast.unparse(ann)
                    kind = 'entity' if base in local else 'prim'
                    meta = {}; default = None; has_field = st.value is not None
                    if st.value is not None:
                        kws = {k.arg: k.value for k in st.value.keywords}
                        if 'metadata' in kws: meta = ast.literal_eval(kws['metadata'])
                        if 'default' in kws: default = ast.unparse(kws['default'])
                    fields.append(dict(name=name, base=base, kind=kind, arr=is_arr, outer_opt=outer_opt, inner_opt=inner_opt, meta=meta, default=default))
        info = dict(api=api, ver=ver, typ=typ, name=n.name,
                    etype=ast.unparse(cv['__type__']).split('.')[-1],
                    version=int(cv['__version__'].args[0].value if not isinstance(cv['__version__'].args[0], ast.UnaryOp) else -1),
                    flexible=cv['__flexible__'].value,
                    api_key=(ast.literal_eval(cv['__api_key__'].args[0]) if '__api_key__' in cv else None),
                    header=(imports[ast.unparse(cv['__header_schema__'])] if '__header_schema__' in cv else None),
                    fields=fields)
        classes[(api, ver, typ, n.name)] = info
json.dump(list(classes.values()), open('/tmp/explore/ssm.json','w'))
print(len(classes), sum(len(c['fields']) for c in classes.values()))
C = collections.Counter()
for c in classes.values():
    for f in c['fields']:
        kt = f['meta'].get('kafka_type')
        tagged = 'tag' in f['meta']
        C[(f['kind'], kt, 'arr' if f['arr'] else '', 'oopt' if f['outer_opt'] else '', 'iopt' if f['inner_opt'] else '', 'tag' if tagged else '', 'flex' if c['flexible'] else '', 'D' if f['default'] is not None else '')] += 1
for k,v in sorted(C.items(), key=lambda kv: str(kv[0])): print(v, k)
