import json, collections
cs = json.load(open('/tmp/explore/ssm.json'))
bymod = collections.defaultdict(list)
for c in cs: bymod[(c['api'], c['ver'], c['typ'])].append(c)
print('modules', len(bymod))
apis = collections.defaultdict(lambda: collections.defaultdict(dict))
for (api, ver, typ), cl in bymod.items():
    top = [c for c in cl if c['etype'] != 'nested']
    assert len(top) == 1, (api, ver, typ, [c['name'] for c in top])
    t = top[0]
    assert t['etype'] == typ and t['version'] == ver
    for c in cl:
        assert (c['version'], c['flexible'], c['api_key'], c['header']) == (t['version'], t['flexible'], t['api_key'], t['header']), (api,ver,typ,c['name'])
    apis[api][typ][ver] = t
print('apis', len(apis))
keys = {}
for api, d in apis.items():
    for typ, vs in d.items():
        vv = sorted(vs)
        assert vv == list(range(vv[0], vv[-1]+1)), (api, typ, vv)
        fl = [vs[v]['flexible'] for v in vv]
        assert fl == sorted(fl), (api, typ, fl)
        ks = {vs[v]['api_key'] for v in vv}
        assert len(ks) == 1
        if typ in ('request','response'):
            keys.setdefault(ks.pop(), set()).add(api)
    if 'request' in d or 'response' in d:
        assert sorted(d['request']) == sorted(d['response']), api
        for v in d['request']:
            rq, rs = d['request'][v], d['response'][v]
            if rq['flexible'] != rs['flexible']: print('FLEX MISMATCH', api, v)
            assert rq['api_key'] == rs['api_key']
            # header rule
            exp_rq = 'kio.schema.request_header.v0.header' if (v == 0 and rq['api_key'] == 7) else ('kio.schema.request_header.v2.header' if rq['flexible'] else 'kio.schema.request_header.v1.header')
            exp_rs = 'kio.schema.response_header.v0.header' if rs['api_key'] == 18 else ('kio.schema.response_header.v1.header' if rs['flexible'] else 'kio.schema.response_header.v0.header')
            assert rq['header'][0] == exp_rq, (api, v, rq['header'])
            assert rs['header'][0] == exp_rs, (api, v, rs['header'])
print('keys', len(keys), all(len(v)==1 for v in keys.values()), min(keys), max(keys))
print(sorted(k for k in range(0, max(keys)+1) if k not in keys))
nonpayload = [a for a,d in apis.items() if 'request' not in d]
print('non payload apis', nonpayload)
# min size & DAG depth
idx = {(c['api'],c['ver'],c['typ'],c['name']): c for c in cs}
PRIM_MIN = {'bool':1,'int8':1,'int16':2,'int32':4,'int64':8,'uint16':2,'uint32':4,'uint64':8,'float64':8,'uuid':16,'error_code':2,'timedelta_i32':4,'timedelta_i64':8,'datetime_i64':8}
import functools
@functools.cache
def minsize(key):
    c = idx[key]; s = 1 if c['flexible'] else 0
    for f in c['fields']:
        if 'tag' in f['meta']: continue
        if f['arr']: s += 1 if c['flexible'] else 4
        elif f['kind']=='entity':
            s += (1 if f['outer_opt'] else minsize(key[:3]+(f['base'],)))
        else:
            kt=f['meta']['kafka_type']
            if kt in PRIM_MIN: s += PRIM_MIN[kt]
            elif kt=='string': s += 1 if c['flexible'] else 2
            else: s += 1 if c['flexible'] else 4
    return s
@functools.cache
def depth(key):
    c = idx[key]
    return 1 + max([depth(key[:3]+(f['base'],)) for f in c['fields'] if f['kind']=='entity'], default=0)
zero = [k for k in idx if minsize(k)==0]
print('zero-min-size classes', zero)
items = set()
for c in cs:
    for f in c['fields']:
        if f['arr'] and f['kind']=='entity': items.add((c['api'],c['ver'],c['typ'],f['base']))
print('array item classes', len(items), 'min item size', min(minsize(k) for k in items))
print('max depth', max(depth(k) for k in idx))
empties = [k for k,c in idx.items() if not c['fields']]
print('classes with no fields', len(empties), empties[:10])
# tags
for c in cs:
    tags = [f['meta']['tag'] for f in c['fields'] if 'tag' in f['meta']]
    assert len(tags)==len(set(tags)) and all(isinstance(t,int) and t>=0 for t in tags)
    if tags: assert c['flexible'], c['name']
    if tags and sorted(tags)!=tags: print('non-ascending declaration order', c['api'], c['ver'], c['name'], tags)
